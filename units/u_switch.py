"""U-switch: GeneratorState::generate_switch whole, verified in Verus over the pending-jump ghost control state of U-loops, with INDUCTIVE invariants on its
three loops (cases, the values of a case, the statements of a case): for every value of the switch expression, every list of cases (any number of
values per case, a default or none) and every way the statements leave (normally, `break`, `continue`), the statements that run are exactly those C
runs -- from the first case that lists the value (or the default) onwards, falling through until a statement breaks out -- every comparison is made
on the evaluated expression before any statement has run, `break` lands on the switch's end, `continue` is handed to the enclosing loop (which is told
about it), every label is defined once and nothing stays pending (C01, C13, C15, C16)."""
import re
from vf.core import Unit
from vf.rustcut import SourceFile, Undecided
from . import common
from .u_gencond import DEC_INJ

NAME = "U-switch"
TOOL = "verus"
PROPS = ["C01", "C13", "C15", "C16"]
RLIMIT = 400
TRUSTED = ["verus 0.2026.09.13 + z3", "A-fmt (R4)",
           "generate_expr, generate_condition_ex (U-condex / U-cond16: control reaches the label exactly when the comparison holds, negated if asked), generate_statement, label, asm(JMP) "
           "are stubs over the ghost control state; a nested statement defines none of this switch's labels (label discipline: U-labels) and leaves the label counter below 2^31"]

SPECS = """
pub struct Error { pub e: u8 }
%(types)s
use AsmMnemonic::*;
pub struct CompilerState { pub x: u8 }
impl CompilerState { #[verifier::external_body] pub fn syntax_error(&self, message: &str, loc: usize) -> Error { unimplemented!() } }
pub struct StatementLoc { pub id: int }
pub enum Exit { Normal, Continue, Break }
pub uninterp spec fn subject() -> int;                  // the value of the switch expression in this execution
pub uninterp spec fn holds_subject(e: ExprType) -> bool; // the evaluated operand denotes it
pub uninterp spec fn expr_id(e: Expr) -> int;
pub uninterp spec fn body_exit(id: int) -> Exit;         // how the statement with this id leaves
pub uninterp spec fn has_continue(id: int) -> bool;      // the statement contains a `continue` of the enclosing loop (it marks the loop entry when generated)
pub struct G {
    pub skip: Option<Seq<char>>,       // a forward jump is pending to this label
    pub back: Option<Seq<char>>,       // a backward jump was taken to this label: the pass is over
    pub ran: Seq<int>,                 // statements / expressions executed, in order (ids)
    pub defined: Set<Seq<char>>,       // labels defined so far
    pub subject_valid: bool,           // nothing has run since the switch expression was evaluated
}
pub open spec fn live(g: G) -> bool { g.skip is None && g.back is None }
pub open spec fn jump(g: G, l: Seq<char>) -> G { if !live(g) { g } else if g.defined.contains(l) { G { back: Some(l), ..g } } else { G { skip: Some(l), ..g } } }
pub open spec fn fresh(g: G, l: Seq<char>) -> bool { !g.defined.contains(l) }
pub struct GeneratorState<'a> {
    pub compiler_state: &'a CompilerState,
    pub local_label_counter_if: u32,
    pub loops: Vec<(String, String, bool)>,
    pub gh: Ghost<G>,
}
pub type Case = (Vec<i32>, Vec<StatementLoc>);
#[verifier::external_body] pub fn string_clone(s: &String) -> (r: String) ensures r == *s { s.clone() }
#[verifier::external_body] pub fn string_empty() -> (r: String) ensures r@.len() == 0 { String::new() }
#[verifier::external_body]
pub fn vec_last(v: &Vec<(String, String, bool)>) -> (r: Option<&(String, String, bool)>) ensures v@.len() == 0 ==> r is None, v@.len() > 0 ==> r is Some && *r->Some_0 == v@[v@.len() - 1] { v.last() }

// ---- what C runs ---------------------------------------------------------------------------------------------------------------------------
// one of the first n values is s
pub open spec fn lists(vals: Seq<i32>, s: int, n: int) -> bool decreases n { n > 0 && n <= vals.len() && (lists(vals, s, n - 1) || vals[n - 1] as int == s) }
pub open spec fn selects(c: Case, s: int) -> bool { c.0@.len() == 0 || lists(c.0@, s, c.0@.len() as int) }
// the first case at or after i that the value selects (cases.len() when there is none)
pub open spec fn sel(cases: Seq<Case>, s: int, i: int) -> int decreases cases.len() - i
{ if i < 0 || i >= cases.len() { cases.len() as int } else if selects(cases[i], s) { i } else { sel(cases, s, i + 1) } }
// the statements st[0..n) run in order, from a state that has run `acc.0` and left by `acc.1`, until one leaves otherwise than normally
pub open spec fn step_stmt(acc: (Seq<int>, Exit), id: int) -> (Seq<int>, Exit) { if acc.1 is Normal { (acc.0.push(id), body_exit(id)) } else { acc } }
pub open spec fn fold_stmts(st: Seq<StatementLoc>, n: int, acc: (Seq<int>, Exit)) -> (Seq<int>, Exit) decreases n
{ if n <= 0 || n > st.len() { acc } else { step_stmt(fold_stmts(st, n - 1, acc), st[n - 1].id) } }
// cases m..n fall through
pub open spec fn fold_cases(cases: Seq<Case>, m: int, n: int, acc: (Seq<int>, Exit)) -> (Seq<int>, Exit) decreases n - m
{ if n <= m || m < 0 || n > cases.len() { acc } else { fold_stmts(cases[n - 1].1@, cases[n - 1].1@.len() as int, fold_cases(cases, m, n - 1, acc)) } }
// C: from the selected case to the end of the switch
pub open spec fn c_runs(cases: Seq<Case>, s: int) -> (Seq<int>, Exit) { fold_cases(cases, sel(cases, s, 0), cases.len() as int, init_acc()) }
// one of the first k statements / of the statements of the first n cases contains a `continue`
pub open spec fn cont_stmts(st: Seq<StatementLoc>, k: int) -> bool decreases k { k > 0 && k <= st.len() && (cont_stmts(st, k - 1) || has_continue(st[k - 1].id)) }
pub open spec fn cont_cases(cases: Seq<Case>, n: int) -> bool decreases n { n > 0 && n <= cases.len() && (cont_cases(cases, n - 1) || cont_stmts(cases[n - 1].1@, cases[n - 1].1@.len() as int)) }
pub open spec fn any_continue(cases: Seq<Case>) -> bool { cont_cases(cases, cases.len() as int) }
// the ghost control state after the statements accounted for in `a`: nothing pending, or on the way to the switch's end (break) / the enclosing loop's continuation (continue)
pub open spec fn at(g: G, a: (Seq<int>, Exit), eid: int, g0: G, sew: Seq<char>, lw: Seq<char>, has_parent: bool) -> bool {
    g.ran =~= seq![eid] + a.0 && match a.1 {
        Exit::Normal => live(g),
        Exit::Break => g.skip == Some(sew) && g.back is None,
        Exit::Continue => has_parent && (if g0.defined.contains(lw) { g.back == Some(lw) && g.skip is None } else { g.skip == Some(lw) && g.back is None }),
    }
}
pub open spec fn init_acc() -> (Seq<int>, Exit) { (Seq::<int>::empty(), Exit::Normal) }
pub open spec fn ns(k: int) -> Seq<char> { ".switchnextstatement"@ + dec(k) }
pub open spec fn nc(k: int) -> Seq<char> { ".switchnextcase"@ + dec(k) }
pub open spec fn se(k: int) -> Seq<char> { ".switchend"@ + dec(k) }
"""

STUBS = """
    #[verifier::external_body]
    pub(crate) fn generate_expr(&mut self, expr: &Expr, pos: usize, high_byte: bool, second_time: bool) -> (res: Result<ExprType, Error>)
        ensures final(self).compiler_state == old(self).compiler_state, final(self).loops == old(self).loops, final(self).local_label_counter_if == old(self).local_label_counter_if,
            res is Ok ==> holds_subject(res->Ok_0),
            (res is Ok && !live(old(self).gh@)) ==> final(self).gh@ == old(self).gh@,
            (res is Ok && live(old(self).gh@)) ==> final(self).gh@ == (G { ran: old(self).gh@.ran.push(expr_id(*expr)), subject_valid: true, ..old(self).gh@ }),
    { unimplemented!() }
    // a comparison of the evaluated switch expression with a constant: control goes to the label exactly when it holds (negated if asked)
    #[verifier::external_body]
    fn generate_condition_ex(&mut self, l: &ExprType, op: &Operation, r: &ExprType, pos: usize, negate: bool, label: &str) -> (res: Result<(), Error>)
        requires
            holds_subject(*l) && *op == Operation::Eq && r is Immediate, //@ C01:switch-compares-the-expression-for-equality
            !live(old(self).gh@) || old(self).gh@.subject_valid, //@ C01:switch-tests-before-any-statement
        ensures final(self).compiler_state == old(self).compiler_state, final(self).loops == old(self).loops, final(self).local_label_counter_if == old(self).local_label_counter_if,
            res is Ok ==> final(self).gh@ == (if (subject() == r->Immediate_0 as int) != negate { jump(old(self).gh@, label@) } else { old(self).gh@ }),
    { unimplemented!() }
    #[verifier::external_body]
    pub fn generate_statement(&mut self, code: &StatementLoc) -> (res: Result<(), Error>)
        requires old(self).loops@.len() > 0,
        ensures final(self).compiler_state == old(self).compiler_state,
            final(self).local_label_counter_if >= old(self).local_label_counter_if, final(self).local_label_counter_if < 0x8000_0000,
            final(self).loops@.len() == old(self).loops@.len(),
            forall|i: int| 0 <= i < old(self).loops@.len() ==> (#[trigger] final(self).loops@[i]).0 == old(self).loops@[i].0 && final(self).loops@[i].1 == old(self).loops@[i].1,
            forall|i: int| 0 <= i < old(self).loops@.len() - 1 ==> #[trigger] final(self).loops@[i] == old(self).loops@[i],
            // a `continue` in the statement marks the innermost entry when it is generated, whether or not control reaches it in this execution
            final(self).loops@[old(self).loops@.len() - 1].2 == (old(self).loops@[old(self).loops@.len() - 1].2 || has_continue(code.id)),
            (res is Ok && !live(old(self).gh@)) ==> final(self).gh@ == old(self).gh@,
            (res is Ok && live(old(self).gh@)) ==> ({
                let top = old(self).loops@[old(self).loops@.len() - 1];
                let g1 = G { ran: old(self).gh@.ran.push(code.id), subject_valid: false, ..old(self).gh@ };
                match body_exit(code.id) {
                    Exit::Normal => final(self).gh@ == g1,
                    Exit::Continue => final(self).gh@ == jump(g1, top.0@) && has_continue(code.id) && top.0@.len() > 0,
                    Exit::Break => final(self).gh@ == jump(g1, top.1@),
                } }),
    { unimplemented!() }
    #[verifier::external_body]
    pub(crate) fn asm(&mut self, mnemonic: AsmMnemonic, operand: &ExprType, pos: usize, high_byte: bool) -> (res: Result<bool, Error>)
        requires mnemonic == JMP && operand is Label,
        ensures final(self).compiler_state == old(self).compiler_state, final(self).loops == old(self).loops, final(self).local_label_counter_if == old(self).local_label_counter_if,
            res is Ok ==> final(self).gh@ == jump(old(self).gh@, operand->Label_0@),
    { unimplemented!() }
    #[verifier::external_body]
    pub(crate) fn label(&mut self, l: &str) -> (res: Result<(), Error>)
        requires !old(self).gh@.defined.contains(l@), //@ C13:switch-label-defined-once
        ensures final(self).compiler_state == old(self).compiler_state, final(self).loops == old(self).loops, res is Ok, final(self).local_label_counter_if == old(self).local_label_counter_if,
            final(self).gh@ == (G { skip: (if old(self).gh@.skip == Some(l@) { None::<Seq<char>> } else { old(self).gh@.skip }), defined: old(self).gh@.defined.insert(l@), ..old(self).gh@ }),
    { unimplemented!() }
"""

LEMMAS = """
pub proof fn lemma_labels_differ(a: int, b: int)
    requires a >= 0, b >= 0,
    ensures ns(a) != nc(b), ns(b) != nc(a), ns(a) != se(b), ns(b) != se(a), nc(a) != se(b), nc(b) != se(a), a != b ==> ns(a) != ns(b) && nc(a) != nc(b) && se(a) != se(b),
{
    reveal_strlit(".switchnextstatement"); reveal_strlit(".switchnextcase"); reveal_strlit(".switchend");
    assert(ns(a)[11] == 's'); assert(nc(b)[11] == 'c'); assert(ns(b)[11] == 's'); assert(nc(a)[11] == 'c'); assert(ns(a)[7] == 'n'); assert(nc(a)[7] == 'n'); assert(se(b)[7] == 'e'); assert(ns(b)[7] == 'n'); assert(nc(b)[7] == 'n'); assert(se(a)[7] == 'e');
    if a != b {
        if ns(a) == ns(b) { lemma_prefix_inj(".switchnextstatement"@, a as nat, b as nat); }
        if nc(a) == nc(b) { lemma_prefix_inj(".switchnextcase"@, a as nat, b as nat); }
        if se(a) == se(b) { lemma_prefix_inj(".switchend"@, a as nat, b as nat); }
    }
}
// the outer labels (the enclosing loop's) are defined or pending elsewhere: they are none of the labels this switch mints
pub open spec fn foreign(l: Seq<char>) -> bool { forall|k: int| k >= 0 ==> l != #[trigger] ns(k) && l != nc(k) && l != se(k) }

pub proof fn lemma_fold_stuck(st: Seq<StatementLoc>, n: int, acc: (Seq<int>, Exit))
    requires !(acc.1 is Normal), 0 <= n <= st.len(),
    ensures fold_stmts(st, n, acc) == acc,
    decreases n
{ if n > 0 { lemma_fold_stuck(st, n - 1, acc); } }
pub proof fn lemma_sel_range(cases: Seq<Case>, s: int, i: int)
    requires 0 <= i <= cases.len(),
    ensures i <= sel(cases, s, i) <= cases.len(), sel(cases, s, i) < cases.len() ==> selects(cases[sel(cases, s, i)], s),
        forall|j: int| i <= j < sel(cases, s, i) ==> !selects(#[trigger] cases[j], s),
    decreases cases.len() - i
{ if i < cases.len() && !selects(cases[i], s) { lemma_sel_range(cases, s, i + 1); } }
// the first selected case at or after 0 is at or after i when none of the cases before i is selected
pub proof fn lemma_sel_skip(cases: Seq<Case>, s: int, i: int)
    requires 0 <= i <= cases.len(), forall|j: int| 0 <= j < i ==> !selects(#[trigger] cases[j], s),
    ensures sel(cases, s, 0) == sel(cases, s, i),
    decreases i
{
    if i > 0 { lemma_sel_skip(cases, s, i - 1); assert(!selects(cases[i - 1], s)); }
}
"""

HEADER = """#[verifier::exec_allows_no_decreases_clause]
    pub(crate) fn generate_switch(&mut self, expr: &Expr, cases: &Vec<(Vec<i32>, Vec<StatementLoc>)>, pos: usize) -> (res: Result<(), Error>)
        requires
            live(old(self).gh@), old(self).gh@.ran.len() == 0,
            old(self).local_label_counter_if < 0x8000_0000, cases@.len() < 0x1000_0000,
            // none of the labels this switch is going to mint is defined yet (label discipline: U-labels); the enclosing loop's labels are other texts
            forall|k: int| k > old(self).local_label_counter_if ==> fresh(old(self).gh@, #[trigger] ns(k)),
            forall|k: int| k > old(self).local_label_counter_if ==> fresh(old(self).gh@, #[trigger] nc(k)),
            forall|k: int| k > old(self).local_label_counter_if ==> fresh(old(self).gh@, #[trigger] se(k)),
            old(self).loops@.len() > 0 ==> foreign(old(self).loops@[old(self).loops@.len() - 1].0@),
        ensures
            final(self).compiler_state == old(self).compiler_state,
            // C's switch: the statements from the first case that lists the value (or the default) run in order, falling through, until one leaves
            res is Ok ==> final(self).gh@.ran == seq![expr_id(*expr)] + c_runs(cases@, subject()).0, //@ C01,C15:switch-runs-what-c-runs
            // afterwards nothing is pending, unless a statement left by `continue`: control is then on its way to the enclosing loop's continuation
            (res is Ok && !(c_runs(cases@, subject()).1 is Continue)) ==> live(final(self).gh@), //@ C01,C13:switch-jumps-land
            (res is Ok && c_runs(cases@, subject()).1 is Continue) ==> old(self).loops@.len() > 0 && ({
                let l = old(self).loops@[old(self).loops@.len() - 1].0@;
                if old(self).gh@.defined.contains(l) { final(self).gh@.back == Some(l) && final(self).gh@.skip is None } else { final(self).gh@.skip == Some(l) && final(self).gh@.back is None } }), //@ C01:switch-continue-goes-to-the-loop
            // the loop stack is restored, and the enclosing loop knows about a `continue` inside the switch
            res is Ok ==> final(self).loops@.len() == old(self).loops@.len()
                && (forall|i: int| 0 <= i < old(self).loops@.len() - 1 ==> #[trigger] final(self).loops@[i] == old(self).loops@[i]), //@ C01:switch-loop-stack-restored
            (res is Ok && old(self).loops@.len() > 0) ==> ({ let n = old(self).loops@.len() - 1;
                final(self).loops@[n].0 == old(self).loops@[n].0 && final(self).loops@[n].1 == old(self).loops@[n].1
                && final(self).loops@[n].2 == (old(self).loops@[n].2 || any_continue(cases@)) }), //@ C01,C13,C16:switch-continue-marks-the-enclosing-loop
"""


def candidates(f):
    """switch statements: single / multiple values per case, default or none, fall-through, break, continue of the enclosing loop; on the 6502 interpreter"""
    out = []
    def prog(decl, body, sim, note=""):
        out.append({"source": "%s\nvoid main() { %s }\n" % (decl, body), "args": ["-O0"], "expect": {"panic": False}, "simulate": dict(sim, stack_empty=True), "note": note})
    def c_switch(x):
        # case 1: r += 1; break; case 2: case 3: r += 2; (falls) case 4: r += 4; break; default: r += 8;
        r = 0
        if x == 1: return 1
        if x in (2, 3): return 6
        if x == 4: return 4
        return 8
    for x in (0, 1, 2, 3, 4, 5, 255):
        prog("unsigned char x, r;", "r = 0; switch (x) { case 1: r += 1; break; case 2: case 3: r += 2; case 4: r += 4; break; default: r += 8; }", {"init": {"x": x}, "expect": {"r": c_switch(x)}}, "x=%d" % x)
        prog("unsigned char x, r;", "r = 0; switch (x) { case 1: r += 1; break; case 2: case 3: r += 2; case 4: r += 4; break; } r += 16;", {"init": {"x": x}, "expect": {"r": (c_switch(x) if x in (1, 2, 3, 4) else 0) + 16}}, "x=%d no default" % x)
        prog("unsigned char x, r;", "r = 0; switch (x) { case 0: case 1: case 2: r = 1; case 3: r += 2; }", {"init": {"x": x}, "expect": {"r": 3 if x in (0, 1, 2) else (2 if x == 3 else 0)}}, "x=%d falls off the end" % x)
        prog("unsigned char x, r;", "r = 0; switch (x) { default: r = 7; }", {"init": {"x": x}, "expect": {"r": 7}}, "x=%d default only" % x)
    for n in (0, 3, 6):
        tot = 0
        for i in range(n):
            if i == 1:
                continue
            if i == 2:
                tot += 10
            tot += 1
        prog("unsigned char i, n, t;", "t = 0; for (i = 0; i < n; i++) { switch (i) { case 1: continue; case 2: t += 10; break; default: break; } t++; }", {"init": {"n": n}, "expect": {"t": tot & 255}}, "n=%d continue in switch" % n)
        tot = 0; i = 0
        while i < n:
            i += 1
            if i in (2, 4):
                continue
            tot += i
        prog("unsigned char i, n, t;", "t = 0; i = 0; while (i < n) { i++; switch (i) { case 2: case 4: continue; } t += i; }", {"init": {"n": n}, "expect": {"t": tot & 255}}, "n=%d continue in a multi-value case" % n)
    for s in (0, 1, 256, 257, 1000):
        prog("short s; unsigned char r;", "r = 0; switch (s) { case 1: r = 1; break; case 256: r = 2; break; case 1000: r = 3; break; default: r = 9; }", {"init16": {"s": s}, "expect": {"r": {1: 1, 256: 2, 1000: 3}.get(s, 9)}}, "16-bit s=%d" % s)
    return out


def annotate(f):
    """ghost bindings, loop invariants and proof hints (no executable text is added)"""
    f.body_start("""        let ghost g0 = self.gh@; let ghost k0 = self.local_label_counter_if as int; let ghost s = subject(); let ghost n0 = self.loops@.len() as int; let ghost eid = expr_id(*expr);
        let ghost m = sel(cases@, s, 0); let ghost sew = se(k0 + 1);
        let ghost lw: Seq<char> = if n0 > 0 { self.loops@[n0 - 1].0@ } else { Seq::<char>::empty() };
        proof { lemma_sel_range(cases@, s, 0); }""")
    f.before(r"^\s*for __i in 0\.\.cases\.len\(\) \{", """        let ghost mut ks: int = k0 + 2;
        proof { lemma_labels_differ(k0 + 1, k0 + 2); assert(self.gh@.ran =~= seq![eid] + init_acc().0);
            assert forall|k: int| k >= ks implies fresh(self.gh@, #[trigger] ns(k)) by {}
        }""")
    f.loop_spec(1, r"^for __i in 0\.\.cases\.len\(\)$", """
            invariant
                self.compiler_state == old(self).compiler_state, holds_subject(e), s == subject(), m == sel(cases@, s, 0), 0 <= m <= cases@.len(), cases@.len() < 0x1000_0000,
                n0 == old(self).loops@.len(), k0 == old(self).local_label_counter_if, sew == se(k0 + 1), eid == expr_id(*expr), g0 == old(self).gh@, live(g0),
                lw == (if n0 > 0 { old(self).loops@[n0 - 1].0@ } else { Seq::<char>::empty() }), n0 > 0 ==> foreign(lw),
                switchend_label@ == sew, switchnextstatement_label@ == ns(ks), k0 + 2 <= ks <= self.local_label_counter_if, self.local_label_counter_if < 0x8000_0000 + 2 * __i + 4,
                self.loops@.len() == n0 + 1, forall|q: int| 0 <= q < n0 ==> #[trigger] self.loops@[q] == old(self).loops@[q],
                self.loops@[n0].0@ == lw, self.loops@[n0].1@ == sew, self.loops@[n0].2 == cont_cases(cases@, __i as int),
                fresh(self.gh@, sew), forall|k: int| k >= ks ==> fresh(self.gh@, #[trigger] ns(k)), forall|k: int| k > self.local_label_counter_if ==> fresh(self.gh@, #[trigger] nc(k)),
                n0 > 0 ==> self.gh@.defined.contains(lw) == g0.defined.contains(lw),
                // still looking for the case: nothing but the expression has run; or cases m .. __i have run, falling through
                m >= __i ==> live(self.gh@) && self.gh@.subject_valid && self.gh@.ran =~= seq![eid] && sel(cases@, s, __i as int) == m,
                m < __i ==> ({ let a = fold_cases(cases@, m, __i as int, init_acc());
                    if a.1 is Normal && __i < cases@.len() { self.gh@.ran =~= seq![eid] + a.0 && self.gh@.skip == Some(ns(ks)) && self.gh@.back is None } else { at(self.gh@, a, eid, g0, sew, lw, n0 > 0) } }),
""")
    f.after_line(r"let case = &cases\[__i\]; let is_last_element = ", """            let ghost gi = self.gh@; let ghost lpi = self.loops@; let ghost ii = __i as int; let ghost ks0 = ks;
            let ghost a0 = if m < ii { fold_cases(cases@, m, ii, init_acc()) } else { init_acc() };
            proof { lemma_sel_range(cases@, s, ii); if ii + 1 <= cases@.len() { lemma_sel_range(cases@, s, ii + 1); } reveal_with_fuel(lists, 3); }""")
    f.after_line(r"let switchnextcase_label = fmt_\w+\(", """            let ghost kc = self.local_label_counter_if as int;
            proof { lemma_labels_differ(ks0, kc); lemma_labels_differ(k0 + 1, kc); lemma_labels_differ(k0 + 1, ks0); }""")
    f.loop_spec(2, r"^for __j in 0\.\.case\.0\.len\(\)$", """
                        invariant
                            self.compiler_state == old(self).compiler_state, self.loops@ == lpi, self.local_label_counter_if == kc, holds_subject(e), s == subject(),
                            switchnextstatement_label@ == ns(ks), switchnextcase_label@ == nc(kc), fresh(gi, ns(ks)), !live(gi) || gi.subject_valid, case == &cases[ii],
                            self.gh@ == (if live(gi) && lists(case.0@, s, __j as int) { G { skip: Some(ns(ks)), ..gi } } else { gi }),
""")
    f.before(r"^\s*for __k in 0\.\.case\.1\.len\(\) \{", """            let ghost gs = self.gh@;
            proof {
                if m >= ii { assert(live(gs) == selects(cases@[ii], s)); assert(!live(gs) ==> gs.skip == Some(nc(kc)) && gs.back is None); }
                if live(gs) { assert(at(gs, fold_stmts(case.1@, 0, a0), eid, g0, sew, lw, n0 > 0)); }
            }""")
    f.loop_spec(3, r"^for __k in 0\.\.case\.1\.len\(\)$", """
                invariant
                    self.compiler_state == old(self).compiler_state, case == &cases[ii], n0 == old(self).loops@.len(), n0 == 0 ==> lw.len() == 0,
                    kc <= self.local_label_counter_if, __k == 0 ==> self.local_label_counter_if == kc, __k > 0 ==> self.local_label_counter_if < 0x8000_0000,
                    self.loops@.len() == n0 + 1, forall|q: int| 0 <= q < n0 ==> #[trigger] self.loops@[q] == old(self).loops@[q],
                    self.loops@[n0].0@ == lw, self.loops@[n0].1@ == sew, self.loops@[n0].2 == (cont_cases(cases@, ii) || cont_stmts(case.1@, __k as int)),
                    self.gh@.defined == gs.defined, fresh(gs, sew), n0 > 0 ==> gs.defined.contains(lw) == g0.defined.contains(lw),
                    !live(gs) ==> self.gh@ == gs,
                    live(gs) ==> a0.1 is Normal && at(self.gh@, fold_stmts(case.1@, __k as int, a0), eid, g0, sew, lw, n0 > 0),
""")
    f.after_stmt(r"self\.generate_statement\(code\)\?;", """                proof { let a = fold_stmts(case.1@, __k as int, a0); assert(fold_stmts(case.1@, __k as int + 1, a0) == step_stmt(a, case.1@[__k as int].id));
                    if live(gs) && a.1 is Normal { assert(seq![eid] + a.0.push(code.id) =~= (seq![eid] + a.0).push(code.id)); } }""")
    f.after_stmt(r"^\s*switchnextstatement_label =\s*fmt_","""            let ghost a1 = fold_stmts(case.1@, case.1@.len() as int, a0);
            proof { ks = self.local_label_counter_if as int; lemma_labels_differ(ks, kc); lemma_labels_differ(k0 + 1, ks); lemma_labels_differ(ks, ks0);
                assert(cont_cases(cases@, ii + 1) == (cont_cases(cases@, ii) || cont_stmts(case.1@, case.1@.len() as int)));
                if m <= ii { assert(fold_cases(cases@, m, ii + 1, init_acc()) == a1); }
            }""")
    f.after_block(r"if jmp_to_next_case \{", """
            proof {
                assert forall|k: int| k >= ks implies fresh(self.gh@, #[trigger] ns(k)) by { lemma_labels_differ(k, ks0); lemma_labels_differ(k, kc); }
                assert forall|k: int| k > self.local_label_counter_if implies fresh(self.gh@, #[trigger] nc(k)) by { lemma_labels_differ(k, ks0); lemma_labels_differ(k, kc); }
                assert(fresh(self.gh@, sew));
                if m > ii { assert(!live(gs)); assert(live(self.gh@)); }
                if m == ii { assert(live(gs)); assert(a1 == fold_cases(cases@, m, ii + 1, init_acc())); }
                if m < ii { if a0.1 is Normal { assert(live(gs)); } else { assert(!live(gs)); lemma_fold_stuck(case.1@, case.1@.len() as int, a0); assert(a1 == a0); } }
            }""")


def build(repo):
    u = Unit(NAME, TOOL, PROPS, ["src/generate/generate_conditions.rs: GeneratorState::generate_switch"],
             assumptions=["callees are stubs over the ghost control state (TRUSTED); the value of the switch expression and the way each statement leaves are arbitrary (uninterpreted): the contract holds for all of them",
                          "the labels a switch mints are not defined yet (label discipline: U-labels) and are pairwise different texts (proved here from their literals and the injectivity of decimal rendering)",
                          "the label counter stays below 2^31 and a switch has fewer than 2^28 cases (machine arithmetic)",
                          "a post-increment / decrement inside the switch expression is outside this contract (bounded corpus: known finding deferred-plusplus-in-switch-expression)"])
    gc = SourceFile(repo, "src/generate/generate_conditions.rs")
    gm = SourceFile(repo, "src/generate/mod.rs")
    comp = SourceFile(repo, "src/compile.rs")
    asmf = SourceFile(repo, "src/assemble.rs")
    cuts, tys = [], []
    for sf, kind, name, structural in ((comp, "enum", "Operation", True), (asmf, "enum", "AsmMnemonic", True), (gm, "enum", "ExprType", False), (comp, "enum", "Expr", False)):
        c = sf.item(kind, name)
        common.r2(c, structural=structural)
        c.sub(r"pub\(crate\) enum", "pub enum", "R2-pub")
        if not structural:
            c.sub(r"#\[derive\(([^)]*)\)\]", "", "R2-derive (no derived impls needed)", expect=(0, 1))
        cuts.append(c)
        tys.append(c.text)
    fm = common.Fmt({"self.local_label_counter_if": ("int", None)})
    f = gc.fn("generate_switch", within="GeneratorState")
    cuts.append(f)
    f.sub(r"^\s*debug!\([^;]*\);\n", "", "R1 debug! logging dropped", expect=(0, 3))
    f.sub(r"\b(l\.0|switchend_label|switchnextstatement_label|switchnextcase_label)\.clone\(\)", r"string_clone(&\1)", "R11 String::clone -> shim", expect=(1, 8))
    f.sub(r'""\.to_string\(\)', "string_empty()", "R11 \"\".to_string() -> shim", expect=(0, 2))
    f.sub(r"match self\.loops\.last\(\) \{", "match vec_last(&self.loops) {", "R18 Vec::last -> shim", expect=(0, 2))
    common.r27_is_some_and(f)
    f.sub(r"if let Some\(l\) = self\.loops\.last_mut\(\) \{\s*l\.2 = ([^;{}]+);\s*\}",
          r"if self.loops.len() > 0 { let __e = self.loops.pop().unwrap(); self.loops.push((__e.0, __e.1, \1)); }", "R18 last_mut() -> pop / push of the same entry with the mark assigned", expect=(0, 1))
    # R26: iterator adapters -> index loops over the same sequences, in the same order
    def r26(mm):
        cond = re.sub(r"\bi\b", "__i", mm.group(1))
        return "for __i in 0..cases.len() {\n            let case = &cases[__i]; let is_last_element = %s;" % cond
    f.sub(r"for \(case, is_last_element\) in cases\s*\.iter\(\)\s*\.enumerate\(\)\s*\.map\(\|\(i, c\)\| \(c, ([^;{}|]+?)\)\)\s*\{", r26,
          "R26 iter().enumerate().map(|(i, c)| (c, <expr of i>)) -> index loop with the same bindings", expect=1)
    f.sub(r"for i in &case\.0 \{", "for __j in 0..case.0.len() {\n                        let i = &case.0[__j];", "R26 for-in-&Vec -> index loop", expect=(0, 1))
    f.sub(r"for code in &case\.1 \{", "for __k in 0..case.1.len() {\n                let code = &case.1[__k];", "R26 for-in-&Vec -> index loop", expect=(0, 1))
    fm.apply(f)
    f.set_header(HEADER, expect_sig="pub(crate) fn generate_switch( &mut self, expr: &'a Expr, cases: &'a Vec<(Vec<i32>, Vec<StatementLoc<'a>>)>, pos: usize, ) -> Result<(), Error>")
    annotate(f)
    u.text[None] = common.PRELUDE + common.header_comment(NAME, cuts) + "verus! {\n" + common.DEC_SPECS + DEC_INJ + (SPECS % {"types": "\n".join(tys)}) + LEMMAS + fm.text() + \
        "impl<'a> GeneratorState<'a> {\n" + STUBS + "\n" + f.text + "\n}\n" + common.CANARY + "\n} // verus!\n"
    u.rewrites = common.collect_rewrites(cuts)
    u.dropped = ["R6 shim environment (statements reduced to an id)", "debug! logging (R1)"]
    return u
