"""U-optable: the two rule-to-operation tables of the expression parsers (parse_expr_ex for statements, parse_expr_init_value_ex for the initialisers of local
variables: two copies of the same match) and the operator lists of the three Pratt tables, checked in Verus against the grammar (src/cc6502.pest, read on
every run) and a table written from C: every infix token the grammar can deliver has an arm (the `unreachable!()` of the match is unreachable), the arm
yields the operation C gives the token (`<=` is less-or-equal in initialisers too), and every infix token is registered in the Pratt parser that will
receive it (an unregistered token makes pest's PrattParser panic) (C01, C15, C16)."""
import re
from vf.core import Unit
from vf.rustcut import SourceFile, Undecided, mask, match_brace
from . import common

NAME = "U-optable"
TOOL = "verus"
PROPS = ["C01", "C15", "C16", "C10"]
RLIMIT = 100
TRUSTED = ["verus 0.2026.09.13 + z3", "the grammar file is parsed by this unit for its token definitions (`name = { \"text\" }`) and its `infix` / `infix_ex` alternatives; that pest delivers exactly these rules to map_infix is pest's semantics",
           "the table C gives: token text -> operation (spec function c_op, written from the C operators)"]

# the C meaning of each infix token text
C_OPS = [("*", "Mul(false)"), ("/", "Div(false)"), ("+", "Add(false)"), ("-", "Sub(false)"), ("<<", "Bls(false)"), (">>", "Brs(false)"), ("<", "Lt"), ("<=", "Lte"), (">", "Gt"), (">=", "Gte"),
         ("==", "Eq"), ("!=", "Neq"), ("&", "And(false)"), ("^", "Xor(false)"), ("|", "Or(false)"), ("&&", "Land"), ("||", "Lor"), ("=", "Assign"), ("+=", "Add(true)"), ("-=", "Sub(true)"),
         ("*=", "Mul(true)"), ("/=", "Div(true)"), ("<<=", "Bls(true)"), (">>=", "Brs(true)"), ("&=", "And(true)"), ("^=", "Xor(true)"), ("|=", "Or(true)"), (",", "Comma"), ("?", "TernaryCond1"), (":", "TernaryCond2")]


def candidates(f):
    """every compound assignment and comparison operator in a statement and in a local initialiser: no panic, and <= means <="""
    out = []
    for op in ("*=", "/=", "+=", "-=", "&=", "|=", "^=", "<<=", ">>="):
        out.append({"source": "unsigned char x;\nvoid main() { x %s 2; }\n" % op, "args": ["-O0"], "expect": {"panic": False}, "note": "x %s 2 must compile or be rejected with an error" % op})
    for a, b in ((3, 3), (2, 3), (4, 3)):
        out.append({"source": "unsigned char a, b, q;\nvoid main() { unsigned char r = a <= b; q = r; }\n", "args": ["-O0"], "expect": {"panic": False},
                    "simulate": {"init": {"a": a, "b": b}, "expect": {"q": int(a <= b)}, "stack_empty": True}, "note": "<= in a local initialiser, a=%d b=%d" % (a, b)})
    return out


def grammar(repo):
    import os
    text = open(os.path.join(repo, "src/cc6502.pest")).read()
    toks = dict(re.findall(r'^\s*(\w+)\s*=\s*\{\s*"([^"]+)"\s*\}', text, re.M))
    lists = {}
    for name in ("infix", "infix_ex", "calc_infix"):
        m = re.search(r"^\s*%s\s*=\s*_\{([^}]*)\}" % name, text, re.M)
        if not m:
            raise Undecided("src/cc6502.pest: rule %s not found" % name)
        lists[name] = [x.strip() for x in m.group(1).split("|") if x.strip()]
    uses = {"expr": re.search(r"^expr\s*=\s*\{[^}]*\b(infix\w*)\b", text, re.M), "expr_init_value": re.search(r"^expr_init_value\s*=\s*\{[^}]*\b(infix\w*)\b", text, re.M)}
    if not uses["expr"] or not uses["expr_init_value"]:
        raise Undecided("src/cc6502.pest: expr / expr_init_value not found")
    return toks, lists, {k: v.group(1) for k, v in uses.items()}


def build(repo):
    u = Unit(NAME, TOOL, PROPS, ["src/compile.rs: parse_expr_ex -- the rule-to-operation match of map_infix (R8)", "src/compile.rs: parse_expr_init_value_ex -- its copy of that match (R8)",
                                  "src/compile.rs: CompilerState::new -- the operator lists of the Pratt tables `pratt` and `pratt_init_value` (scanned)", "src/cc6502.pest: infix / infix_ex and the token rules (read)"],
             assumptions=["pest delivers to map_infix exactly the alternatives of the grammar's infix rule; the C table c_op is the specification"])
    toks, lists, uses = grammar(repo)
    comp = SourceFile(repo, "src/compile.rs")
    opc = comp.item("enum", "Operation")
    common.r2(opc, structural=True)
    opc.sub(r"pub\(crate\) enum", "pub enum", "R2-pub")
    cuts = [opc]
    rules = sorted(set(lists["infix"]) | set(lists["infix_ex"]))
    calc_rules = [r for r in lists["calc_infix"] if r not in rules]
    for r in rules:
        if r not in toks:
            raise Undecided("src/cc6502.pest: infix alternative %s has no token definition of the form `%s = { \"..\" }`" % (r, r))
    m = mask(comp.text)
    fns = []
    for fname, gram in (("parse_expr_ex", uses["expr"]), ("parse_expr_init_value_ex", uses["expr_init_value"])):
        s0, ob0, cb0 = comp.find_fn_span(fname)
        k = re.compile(r"\.map_infix\(\|lhs, op, rhs\| \{\s*let op = match op\.as_rule\(\) \{").search(m, ob0, cb0)
        if not k:
            raise Undecided("%s: `.map_infix(|lhs, op, rhs| { let op = match op.as_rule() {` not found" % fname)
        a = k.end() - 1
        b = match_brace(m, a)
        c = comp.cut_span(m.rfind("let op = match", ob0, a), b + 2, "%s(): the rule-to-operation match of map_infix (R8)" % fname)
        cuts.append(c)
        c.sub(r"\A\s*let op = match op\.as_rule\(\) \{", "let op = match rule {", "R8 the pair's rule is the window's parameter", expect=1, flags=0)
        c.sub(r"\brule => unreachable!\([^;]*?\),\s*\};", "_ => { unreached() }\n                };", "R1 unreachable!(format) -> unreached() (requires false)", expect=(0, 1))
        c.sub(r"\};\s*\Z", "};", "(end of the statement)", expect=(0, 1), flags=0)
        fns.append("""
// R8: the match of %(fname)s, verbatim; it receives the alternatives of the grammar rule `%(gram)s`
pub fn table_%(fname)s(rule: Rule) -> (op: Operation)
    requires in_%(gram)s(rule),
    ensures op == c_op_of(rule), //@ C01,C15,C10:parser-operator-table-%(short)s
{
%(body)s
    op
}
""" % {"fname": fname, "gram": gram, "short": "statements" if fname == "parse_expr_ex" else "initialisers", "body": c.text})
    # Pratt tables
    regs = {}
    for tname in ("pratt", "pratt_init_value", "calculator"):
        k = re.compile(r"let %s = PrattParser::new\(\)" % tname).search(m)
        if not k:
            raise Undecided("`let %s = PrattParser::new()` not found" % tname)
        e = m.index(";", k.end())
        regs[tname] = sorted(set(re.findall(r"Op::infix\(Rule::(\w+),", m[k.end():e])))
    enum = "#[derive(Copy, Clone, PartialEq, Eq, Structural)]\npub enum Rule { %s, other }\n" % ", ".join(rules + calc_rules)
    def setfn(name, members):
        return "pub open spec fn %s(r: Rule) -> bool { %s }\n" % (name, " || ".join("r == Rule::%s" % x for x in members if x in rules + calc_rules) or "false")
    specs = enum
    cmap = dict(C_OPS)
    for r in rules:
        if toks[r] not in cmap:
            raise Undecided("src/cc6502.pest: infix token %r (rule %s) is not a C operator this unit knows" % (toks[r], r))
    # the operation C gives each rule's token: the grammar's token text (read from src/cc6502.pest) looked up in the C table above, written out per rule
    specs += "pub open spec fn c_op_of(r: Rule) -> Operation { match r {\n%s\n%s    Rule::other => Operation::Comma } }\n" % ("\n".join('    Rule::%s => Operation::%s,      // %s' % (r, cmap[toks[r]], toks[r]) for r in rules), "".join("    Rule::%s => Operation::Comma,      // (constant expressions only)\n" % r for r in calc_rules))
    specs += setfn("in_infix", lists["infix"]) + setfn("in_infix_ex", lists["infix_ex"])
    specs += setfn("registered_pratt", regs["pratt"]) + setfn("registered_pratt_init_value", regs["pratt_init_value"])
    specs += setfn("in_calc_infix", lists["calc_infix"]) + setfn("registered_calculator", regs["calculator"])
    specs += "#[verifier::external_body] pub fn unreached() -> Operation requires false { unimplemented!() }\n"
    cover = """
// every infix token the grammar delivers to a parser is registered in that parser's Pratt table (pest panics on an unregistered one)
pub proof fn pratt_covers_statements(r: Rule) requires in_%(g1)s(r) ensures registered_pratt(r) //@ C16,C01:pratt-table-registers-every-infix-token-statements
{}
pub proof fn pratt_covers_initialisers(r: Rule) requires in_%(g2)s(r) ensures registered_pratt_init_value(r) //@ C16,C01:pratt-table-registers-every-infix-token-initialisers
{}
pub proof fn pratt_covers_calculator(r: Rule) requires in_calc_infix(r) ensures registered_calculator(r) //@ C16,C10:pratt-table-registers-every-infix-token-constant-expressions
{}
""" % {"g1": uses["expr"], "g2": uses["expr_init_value"]}
    u.text[None] = common.PRELUDE + common.header_comment(NAME, cuts) + "verus! {\n" + opc.text + "\n" + specs + "\n".join(fns) + cover + common.CANARY + "\n} // verus!\n"
    u.rewrites = common.collect_rewrites(cuts)
    u.dropped = ["everything of the two parsers but the match on the operator's rule"]
    return u
