"""U-unary: generate_neg and generate_bnot whole, and the arms of generate_expr that call them (R8), verified in Verus against recording stubs: the operand is
evaluated for the byte that is asked for, and that byte is negated (0 - x, the borrow continuing from the low byte) or complemented (x ^ 0xff): in the
high-byte pass of a 16-bit context the HIGH byte of the operand is complemented, not its low byte a second time (C01, C15)."""
import re
from vf.core import Unit
from vf.rustcut import SourceFile, Undecided, mask
from . import common

NAME = "U-unary"
TOOL = "verus"
PROPS = ["C01", "C15", "C16", "C10"]
RLIMIT = 100
TRUSTED = ["verus 0.2026.09.13 + z3", "generate_expr / generate_arithm are recording stubs (U-arithm: the operation on the byte asked for; an Immediate operand contributes its low or its high byte)"]

SPECS = """
pub struct Error { pub e: u8 }
%(types)s
pub struct CompilerState { pub x: u8 }
pub uninterp spec fn operand_of(e: Expr, high: bool) -> ExprType;
pub struct G {
    pub visits: Seq<(Expr, bool, bool)>,                         // generate_expr calls: (expression, high byte, second_time)
    pub ops: Seq<(ExprType, Operation, ExprType, bool)>,         // generate_arithm calls: (left, operation, right, high byte)
}
pub struct GeneratorState<'a> { pub compiler_state: &'a CompilerState, pub gh: Ghost<G> }
// the byte of a constant that a pass works on
pub open spec fn byte_of(v: i32, high: bool) -> int { if high { ((v as int) / 256) %% 256 } else { (v as int) %% 256 } }
"""

STUBS = """
    #[verifier::external_body]
    pub(crate) fn generate_expr(&mut self, expr: &Expr, pos: usize, high_byte: bool, second_time: bool) -> (res: Result<ExprType, Error>)
        ensures final(self).compiler_state == old(self).compiler_state,
            res is Ok ==> res->Ok_0 == operand_of(*expr, high_byte),
            res is Ok ==> final(self).gh@ == (G { visits: old(self).gh@.visits.push((*expr, high_byte, second_time)), ..old(self).gh@ }),
    { unimplemented!() }
    #[verifier::external_body]
    pub(crate) fn generate_arithm(&mut self, l: &ExprType, op: &Operation, r: &ExprType, pos: usize, high_byte: bool) -> (res: Result<ExprType, Error>)
        ensures final(self).compiler_state == old(self).compiler_state,
            res is Ok ==> final(self).gh@ == (G { ops: old(self).gh@.ops.push((*l, *op, *r, high_byte)), ..old(self).gh@ }),
    { unimplemented!() }
"""

BNOT_H = """pub(crate) fn generate_bnot(&mut self, expr: &Expr, pos: usize, high_byte: bool) -> (res: Result<ExprType, Error>)
        requires old(self).gh@.visits.len() == 0, old(self).gh@.ops.len() == 0,
        ensures final(self).compiler_state == old(self).compiler_state,
            (res is Ok && *expr is Integer) ==> res->Ok_0 == ExprType::Immediate(!expr->Integer_0), //@ C01,C10:bnot-constant
            // from the property: an operand that folds to a constant (`~(1 + 2)`) gives the C value, the complement of the whole constant -- not a 16-bit mask of it
            (res is Ok && !(*expr is Integer) && operand_of(*expr, high_byte) is Immediate) ==> res->Ok_0 == ExprType::Immediate(!operand_of(*expr, high_byte)->Immediate_0), //@ C10,C01:bnot-of-a-folded-constant-is-its-complement
            // the byte asked for of the operand, exclusive-or 0xff
            (res is Ok && !(*expr is Integer) && !(operand_of(*expr, high_byte) is Immediate)) ==> final(self).gh@.visits.len() == 1 && final(self).gh@.visits[0].0 == *expr && final(self).gh@.visits[0].1 == high_byte
                && final(self).gh@.ops.len() == 1 && final(self).gh@.ops[0].0 == operand_of(*expr, high_byte) && final(self).gh@.ops[0].1 == Operation::Xor(false)
                && final(self).gh@.ops[0].2 is Immediate && byte_of(final(self).gh@.ops[0].2->Immediate_0, high_byte) == 255 && final(self).gh@.ops[0].3 == high_byte, //@ C01,C15:bnot-complements-the-byte-asked-for
"""
BNOT_H_OLD = """pub(crate) fn generate_bnot(&mut self, expr: &Expr, pos: usize) -> (res: Result<ExprType, Error>)
        requires old(self).gh@.visits.len() == 0, old(self).gh@.ops.len() == 0,
        ensures final(self).compiler_state == old(self).compiler_state,
            (res is Ok && *expr is Integer) ==> res->Ok_0 == ExprType::Immediate(!expr->Integer_0), //@ C01,C10:bnot-constant
            // a function that is not told which byte is asked for works on the low byte (the call site's obligation says whether that is enough)
            (res is Ok && !(*expr is Integer)) ==> final(self).gh@.visits.len() == 1 && final(self).gh@.visits[0].0 == *expr && final(self).gh@.visits[0].1 == false
                && final(self).gh@.ops.len() == 1 && final(self).gh@.ops[0].0 == operand_of(*expr, false) && final(self).gh@.ops[0].1 == Operation::Xor(false)
                && final(self).gh@.ops[0].2 is Immediate && byte_of(final(self).gh@.ops[0].2->Immediate_0, false) == 255 && final(self).gh@.ops[0].3 == false, //@ C01,C15:bnot-complements-the-byte-asked-for
"""
NEG_H = """pub(crate) fn generate_neg(&mut self, expr: &Expr, pos: usize, high_byte: bool) -> (res: Result<ExprType, Error>)
        requires old(self).gh@.visits.len() == 0, old(self).gh@.ops.len() == 0,
            *expr is Integer ==> expr->Integer_0 > i32::MIN,      // A-literal-sign: in an expression the sign is an operator, a literal is not negative (the Pratt parser takes `-` as a prefix before the primary)
        ensures final(self).compiler_state == old(self).compiler_state,
            // 0 - x on the byte asked for (the borrow of the low byte continues into the high byte: U-arithm)
            (res is Ok && !(*expr is Integer)) ==> final(self).gh@.visits.len() == 1 && final(self).gh@.visits[0].0 == *expr && final(self).gh@.visits[0].1 == high_byte
                && final(self).gh@.ops.len() == 1 && final(self).gh@.ops[0].0 == ExprType::Immediate(0) && final(self).gh@.ops[0].1 == Operation::Sub(false)
                && final(self).gh@.ops[0].2 == operand_of(*expr, high_byte) && final(self).gh@.ops[0].3 == high_byte, //@ C01,C15:neg-negates-the-byte-asked-for
"""


def candidates(f):
    """~ and - on 8- and 16-bit operands in 8- and 16-bit contexts"""
    out = []
    def prog(decl, body, sim, note=""):
        out.append({"source": "%s\nvoid main() { %s }\n" % (decl, body), "args": ["-O0"], "expect": {"panic": False}, "simulate": dict(sim, stack_empty=True), "note": note})
    for v in (0x1234, 0x00ff, 0xff00):
        prog("short s, u;", "u = ~s;", {"init16": {"s": v}, "expect16": {"u": (~v) & 0xffff}}, "~ of a short, 0x%04x" % v)
        prog("short s, u;", "u = -s;", {"init16": {"s": v}, "expect16": {"u": (-v) & 0xffff}}, "- of a short, 0x%04x" % v)
        prog("short s; unsigned char d;", "d = ~s;", {"init16": {"s": v}, "expect": {"d": (~v) & 0xff}}, "low byte of ~s")
        prog("short t[2], u;", "X = 1; u = ~t[X];", {"init_addr": {"t+1": v & 255, "t+3": v >> 8}, "expect16": {"u": (~v) & 0xffff}}, "~ of an element of an array of shorts")
    for c in (0x34, 0xff, 0):
        prog("unsigned char c, d;", "d = ~c;", {"init": {"c": c}, "expect": {"d": (~c) & 0xff}}, "~ of a char")
        prog("short u; unsigned char c;", "u = ~c;", {"init": {"c": c}, "expect16": {"u": (~c) & 0xffff}}, "~ of a char widened (integer promotion)")
        prog("unsigned char c, d;", "d = -c;", {"init": {"c": c}, "expect": {"d": (-c) & 0xff}}, "- of a char")
    prog("unsigned char r;", "r = (~(1+2) == -4);", {"expect": {"r": 1}}, "~ of a folded constant compared with its C value")
    prog("short s;", "s = ~(1+2) >> 4;", {"expect16": {"s": 0xffff}}, "~ of a folded constant, shifted")
    prog("unsigned char r;", "r = (~3 == -4);", {"expect": {"r": 1}}, "~ of a literal")
    return out


def build(repo):
    u = Unit(NAME, TOOL, PROPS, ["src/generate/generate_arithm.rs: GeneratorState::generate_bnot", "src/generate/generate_arithm.rs: GeneratorState::generate_neg",
                                  "src/generate/generate_statements.rs: generate_expr, arms Expr::Neg / Expr::BNot (call sites scanned: the byte asked for is handed on)"],
             assumptions=["callees are recording stubs (TRUSTED)", "A-literal-sign: an integer literal inside an expression is not i32::MIN (the sign is a prefix operator; `2147483648` is rejected by parse_int)"])
    ga = SourceFile(repo, "src/generate/generate_arithm.rs")
    gs = SourceFile(repo, "src/generate/generate_statements.rs")
    gm = SourceFile(repo, "src/generate/mod.rs")
    comp = SourceFile(repo, "src/compile.rs")
    cuts, tys = [], []
    for sf, kind, name, structural in ((comp, "enum", "Operation", True), (gm, "enum", "ExprType", False), (comp, "enum", "Expr", False)):
        c = sf.item(kind, name)
        common.r2(c, structural=structural)
        c.sub(r"pub\(crate\) enum", "pub enum", "R2-pub")
        if not structural:
            c.sub(r"#\[derive\(([^)]*)\)\]", "", "R2-derive (no derived impls needed)", expect=(0, 1))
        cuts.append(c)
        tys.append(c.text)
    bn = ga.fn("generate_bnot", within="GeneratorState")
    ng = ga.fn("generate_neg", within="GeneratorState")
    cuts += [bn, ng]
    has_hb = re.search(r"fn generate_bnot\(\s*&mut self,\s*expr: &Expr,\s*pos: usize,\s*high_byte: bool\s*,?\s*\)", bn.text) is not None
    if has_hb:
        bn.set_header(BNOT_H, expect_sig="pub(crate) fn generate_bnot(&mut self, expr: &Expr, pos: usize, high_byte: bool) -> Result<ExprType, Error>")
    else:
        bn.set_header(BNOT_H_OLD, expect_sig="pub(crate) fn generate_bnot(&mut self, expr: &Expr, pos: usize) -> Result<ExprType, Error>")
    ng.set_header(NEG_H, expect_sig="pub(crate) fn generate_neg(&mut self, expr: &Expr, pos: usize, high_byte: bool) -> Result<ExprType, Error>")
    # call sites in generate_expr: the byte asked for is passed on
    m = mask(gs.text)
    calls = re.findall(r"Expr::(Neg|BNot)\(v\)\s*=>\s*self\.generate_(neg|bnot)\(v, pos(, high_byte)?\)", m)
    site_fns = []
    for variant, fn, hb in calls:
        site_fns.append("// call site of generate_expr, as written: `Expr::%s(v) => self.generate_%s(v, pos%s)`\nproof fn call_site_%s() { assert(%s); //@ C01,C15:%s-call-site-passes-the-byte-asked-for\n}\n" % (variant, fn, hb, fn, "true" if hb else "false", fn))
    if len(calls) != 2:
        raise Undecided("generate_expr: expected the two arms `Expr::Neg(v) => self.generate_neg(..)` and `Expr::BNot(v) => self.generate_bnot(..)`, found %d" % len(calls))
    text = common.PRELUDE + common.header_comment(NAME, cuts) + "verus! {\n" + (SPECS % {"types": "\n".join(tys)}) + \
        "impl<'a> GeneratorState<'a> {\n" + STUBS + bn.text + "\n" + ng.text + "\n}\n" + "\n".join(site_fns) + common.CANARY + "\n} // verus!\n"
    u.text[None] = text
    u.rewrites = common.collect_rewrites(cuts)
    u.dropped = ["R6 shim environment"]
    return u
