"""U-cond16: GeneratorState::generate_condition_16bits whole, verified in Verus.  The callees are trace-recording stubs; the emitted decision
sequence (conditional jumps on the high byte / low byte of the 16-bit difference, local labels) is interpreted for every high and low byte and
must reach the target label exactly when `difference op 0` holds (C01; C15 through the shared operator handling)."""
import re
from vf.core import Unit
from vf.rustcut import SourceFile, Undecided
from . import common

NAME = "U-cond16"
TOOL = "verus"
PROPS = ["C01", "C15", "C13", "C16"]
RLIMIT = 200
TRUSTED = ["verus 0.2026.09.13 + z3", "A-fmt (R4)", "generate_condition_ex's contract (it jumps to the label exactly when `operand op 0`, negated if asked) is U-condex's + U-branch's subject",
           "A-arith16: generate_arithm(l, Sub, r) / generate_assign leave the low byte of l - r (of l) in cctmp and the high byte in the returned accumulator expression"]

SPECS = """
pub struct Error { pub e: u8 }
%(types)s
pub struct CompilerState { pub x: u8 }
pub enum Ev { Br { hi: bool, op: Operation, to: Seq<char> }, Lab(Seq<char>) }
pub struct GeneratorState<'a> {
    pub compiler_state: &'a CompilerState,
    pub acc_in_use: bool, pub tmp_in_use: bool, pub local_label_counter_if: u32,
    pub tr: Ghost<Seq<Ev>>,            // decisions emitted so far
    pub hi_expr: Ghost<ExprType>,      // the expression that stands for the high byte of the difference
    pub lo_expr: Ghost<ExprType>,      // where the low byte of the difference currently is (Nothing: lost)
}
// ---- oracle ------------------------------------------------------------------------------------------------------------------------
pub open spec fn neg(o: Operation) -> Operation {
    match o { Operation::Eq => Operation::Neq, Operation::Neq => Operation::Eq, Operation::Lt => Operation::Gte, Operation::Gte => Operation::Lt,
              Operation::Gt => Operation::Lte, Operation::Lte => Operation::Gt, _ => o }
}
pub open spec fn is_cmp_op(o: Operation) -> bool { o == Operation::Eq || o == Operation::Neq || o == Operation::Lt || o == Operation::Lte || o == Operation::Gt || o == Operation::Gte }
pub open spec fn holds(o: Operation, v: int) -> bool {      // v o 0
    match o { Operation::Eq => v == 0, Operation::Neq => v != 0, Operation::Lt => v < 0, Operation::Lte => v <= 0, Operation::Gt => v > 0, Operation::Gte => v >= 0, _ => false }
}
// control flow of the decision sequence: a taken jump to the target ends it; a taken jump to a local label skips to that label's definition
pub open spec fn reaches(tr: Seq<Ev>, i: int, skip: Option<Seq<char>>, hi: int, lo: int, target: Seq<char>) -> bool decreases tr.len() - i {
    if i < 0 || i >= tr.len() { false }
    else {
        match tr[i] {
            Ev::Br { hi: h, op, to } =>
                if skip is None && holds(op, if h { hi } else { lo }) { if to == target { true } else { reaches(tr, i + 1, Some(to), hi, lo, target) } }
                else { reaches(tr, i + 1, skip, hi, lo, target) },
            Ev::Lab(l) => if skip == Some(l) { reaches(tr, i + 1, None, hi, lo, target) } else { reaches(tr, i + 1, skip, hi, lo, target) },
        }
    }
}
"""

STUBS = """
    #[verifier::external_body]
    pub(crate) fn generate_assign(&mut self, left: &ExprType, right: &ExprType, pos: usize, high_byte: bool) -> (res: Result<ExprType, Error>)
        ensures final(self).compiler_state == old(self).compiler_state, final(self).tr@ == old(self).tr@, final(self).local_label_counter_if == old(self).local_label_counter_if,
            (res is Ok && high_byte) ==> (res->Ok_0 is A && final(self).hi_expr@ == res->Ok_0),
            !high_byte ==> final(self).hi_expr@ == old(self).hi_expr@,
            // copying the low byte to cctmp moves it there; computing the high byte in A keeps it only if it is in cctmp already
            (res is Ok && !high_byte) ==> final(self).lo_expr@ == (if *left == ExprType::Tmp(false) && *right == old(self).lo_expr@ { ExprType::Tmp(false) } else { ExprType::Nothing }),
            (res is Ok && high_byte) ==> final(self).lo_expr@ == (if old(self).lo_expr@ == ExprType::Tmp(false) { ExprType::Tmp(false) } else { ExprType::Nothing }),
    { unimplemented!() }
    #[verifier::external_body]
    pub(crate) fn generate_arithm(&mut self, l: &ExprType, op: &Operation, r: &ExprType, pos: usize, high_byte: bool) -> (res: Result<ExprType, Error>)
        ensures final(self).compiler_state == old(self).compiler_state, final(self).tr@ == old(self).tr@, final(self).local_label_counter_if == old(self).local_label_counter_if,
            (res is Ok && high_byte) ==> (res->Ok_0 is A && final(self).hi_expr@ == res->Ok_0),
            !high_byte ==> final(self).hi_expr@ == old(self).hi_expr@,
            (res is Ok && !high_byte) ==> final(self).lo_expr@ == res->Ok_0,          // the low byte of the difference is where the result says
            (res is Ok && high_byte) ==> final(self).lo_expr@ == (if old(self).lo_expr@ == ExprType::Tmp(false) { ExprType::Tmp(false) } else { ExprType::Nothing }),
    { unimplemented!() }
    #[verifier::external_body]
    fn generate_condition_ex(&mut self, l: &ExprType, op: &Operation, r: &ExprType, pos: usize, negate: bool, label: &str) -> (res: Result<(), Error>)
        requires
            *r == ExprType::Immediate(0), is_cmp_op(*op),
            // the byte tested is the high byte of the difference (the accumulator expression just computed) or its low byte (cctmp)
            *l == old(self).hi_expr@ || *l == ExprType::Tmp(false), //@ C01:cond16-tests-difference-bytes
            *l == ExprType::Tmp(false) ==> old(self).lo_expr@ == ExprType::Tmp(false), //@ C01:cond16-low-byte-in-tmp
        ensures final(self).lo_expr@ == old(self).lo_expr@, final(self).compiler_state == old(self).compiler_state, final(self).local_label_counter_if == old(self).local_label_counter_if, final(self).hi_expr@ == old(self).hi_expr@,
            res is Ok ==> final(self).tr@ == old(self).tr@.push(Ev::Br { hi: !(*l == ExprType::Tmp(false)), op: if negate { neg(*op) } else { *op }, to: label@ }),
    { unimplemented!() }
    #[verifier::external_body]
    pub(crate) fn label(&mut self, l: &str) -> (res: Result<(), Error>)
        ensures final(self).compiler_state == old(self).compiler_state, final(self).local_label_counter_if == old(self).local_label_counter_if, final(self).hi_expr@ == old(self).hi_expr@,
            res is Ok, final(self).tr@ == old(self).tr@.push(Ev::Lab(l@)), final(self).lo_expr@ == old(self).lo_expr@,
    { unimplemented!() }
"""

HEADER = """fn generate_condition_16bits(
        &mut self,
        l: &ExprType,
        op: &Operation,
        r: &ExprType,
        pos: usize,
        label: &str,
    ) -> (res: Result<(), Error>)
        requires
            is_cmp_op(*op),
            old(self).tr@.len() == 0,
            old(self).lo_expr@ == *l,          // before anything is computed, the low byte of `l - 0` is the low byte of l itself
            old(self).local_label_counter_if < 0xffff_ffff, //@ C16:cond16-counter-bound
            label@ != ".ifstart"@ + dec(old(self).local_label_counter_if as int),      // the target is not this call's own local label (C13's subject)
        ensures
            // the decision sequence jumps to `label` exactly when the 16-bit difference (high byte hi, signed; low byte lo) satisfies `op 0`
            res is Ok ==> forall|hi: int, lo: int| -128 <= hi <= 127 && 0 <= lo <= 255 ==> #[trigger] reaches(final(self).tr@, 0, None, hi, lo, label@) == holds(*op, hi * 256 + lo), //@ C01,C15:cond16-decision
            // a local label is minted at most once and the counter moves past it
            final(self).local_label_counter_if == old(self).local_label_counter_if || final(self).local_label_counter_if == old(self).local_label_counter_if + 1, //@ C13:cond16-label-counter
"""


def candidates(f):
    """16-bit comparisons of every operator against a constant, zero and another variable, executed on the 6502 interpreter from values around the
    boundary (differences without signed overflow)."""
    out = []
    ops = ["<", "<=", ">", ">=", "==", "!="]
    def s16(v):
        return v - 65536 if v >= 32768 else v
    for rt, vals in (("1000", [(999, 1000), (1000, 1000), (1001, 1000), (744, 1000), (1256, 1000), (65535, 1000)]),
                     ("0", [(0, 0), (1, 0), (256, 0), (65535, 0), (65280, 0), (255, 0)]),
                     ("t", [(5, 7), (7, 5), (300, 300), (256, 255), (255, 256), (65535, 1), (1, 65535)])):
        for op in ops:
            for a, b in vals:
                want = int(eval("%d %s %d" % (s16(a), op, s16(b))))
                sim = {"init16": {"s": a}, "expect": {"z": want}}
                if rt == "t":
                    sim["init16"]["t"] = b
                out.append({"source": "short s, t; unsigned char z;\nvoid main() { z = 0; if (s %s %s) z = 1; }\n" % (op, rt), "args": ["-O0"],
                            "expect": {"panic": False}, "simulate": sim, "note": "s = %d, right = %d: C gives z = %d" % (s16(a), s16(b), want)})
    return out


def build(repo):
    u = Unit(NAME, TOOL, PROPS, ["src/generate/generate_conditions.rs: GeneratorState::generate_condition_16bits"],
             assumptions=["callees (generate_assign, generate_arithm, generate_condition_ex, label) are trace-recording stubs; generate_condition_ex's stub says it jumps to the label exactly when "
                          "`operand op 0` (negated if asked): that is what U-condex + U-branch establish for the real function",
                          "A-arith16: the subtraction leaves the low byte in cctmp and the high byte in the returned accumulator expression; deciding by the sign of the difference ignores "
                          "signed overflow of l - r (the same limitation as the recorded 8-bit known findings), so the oracle is `difference op 0`, not `l op r`",
                          "the target label differs from this call's own `.ifstart<N>` label (label freshness is C13 / U-labels)"])
    gc = SourceFile(repo, "src/generate/generate_conditions.rs")
    gm = SourceFile(repo, "src/generate/mod.rs")
    comp = SourceFile(repo, "src/compile.rs")
    cuts, tys = [], []
    for sf, kind, name, structural in ((comp, "enum", "Operation", True), (gm, "enum", "ExprType", False)):
        c = sf.item(kind, name)
        common.r2(c, structural=structural)
        c.sub(r"pub\(crate\) enum", "pub enum", "R2-pub")
        if not structural:
            c.sub(r"#\[derive\(([^)]*)\)\]", lambda m: "#[derive(%s)]" % ", ".join(x for x in [y.strip() for y in m.group(1).split(",")] if x not in ("PartialEq", "Eq", "Debug")), "R2-derive-noeq")
        cuts.append(c)
        tys.append(c.text)
    f = gc.fn("generate_condition_16bits", within="GeneratorState")
    cuts.append(f)
    # `e != ExprType::Tmp(false)`: derived PartialEq on a String-carrying enum has no Verus spec -> structural test (R3)
    f.sub(r"\be != ExprType::Tmp\(false\)", "!(match e { ExprType::Tmp(false) => true, _ => false })", "R3 `e != ExprType::Tmp(false)` -> match (definition of the derived PartialEq)", expect=(0, 1))
    f.sub(r"&op,", "op,", "R3 `&op` on a reference (auto-deref) -> `op`", expect=(0, 6))
    fm = common.Fmt({"self.local_label_counter_if": ("int", None)})
    fm.apply(f)
    f.set_header(HEADER, expect_sig="fn generate_condition_16bits( &mut self, l: &ExprType, op: &Operation, r: &ExprType, pos: usize, label: &str, ) -> Result<(), Error>")
    f.body_start('        proof { reveal_with_fuel(reaches, 8); }')
    text = common.PRELUDE + common.header_comment(NAME, cuts) + "verus! {\n" + common.DEC_SPECS + (SPECS % {"types": "\n".join(tys)}) + fm.text() + \
        "impl<'a> GeneratorState<'a> {\n" + STUBS + "\n" + f.text + "\n}\n" + common.CANARY + "\n} // verus!\n"
    u.text[None] = text
    u.rewrites = common.collect_rewrites(cuts)
    u.dropped = ["R6 shim environment (GeneratorState fields other than acc_in_use / tmp_in_use / local_label_counter_if, CompilerState)"]
    return u
