unsigned char a;
void f();
void main() { a = f; }
