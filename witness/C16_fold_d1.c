char x;
void main() { x = 7 << 40; }
