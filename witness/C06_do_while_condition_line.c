char x, y, z;
void main() {
  do {
    x++;
  } while (y * z);
}
