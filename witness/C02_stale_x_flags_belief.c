unsigned char a, r;
void main() { r = 0; Y = 255; X = 5; a = Y + 1; X = 5; if (X) r = 1; }
