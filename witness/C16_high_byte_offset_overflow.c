char arr[4]; unsigned char r;
void main() { r = (arr >> 8) + 16777216; }
