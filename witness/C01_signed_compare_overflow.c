signed char a, b; char z;
void main() { z = 0; if (a < b) z = 1; }
