char x;
void main() { x = 0xFFFFFFFF; }
