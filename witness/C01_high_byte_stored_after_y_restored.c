/* C01 witness (fixed): t is an array of shorts (low bytes first, then high bytes), b = 2, Y = 0:
       STY cctmp / LDY b / LDA s / STA t,Y / LDY cctmp / LDA s+1 / STA t+4,Y
   the high byte went to t+4+Y(program's) = t+4 instead of t+4+b = t+6. */
short t[4];
unsigned char b;
short s;
void main()
{
    Y = 0;
    t[b] = s;
}
