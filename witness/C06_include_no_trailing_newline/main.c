char a;
#include "nonl.h"
char b;
void main() {
  zz = 1;
}
