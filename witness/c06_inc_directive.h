// header
#ifndef NOPE
#error stop here
#endif
