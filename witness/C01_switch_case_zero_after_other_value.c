unsigned char x, r;
void main() { r = 0; switch (x & 3) { case 1: case 0: r = 1; break; default: r = 2; } }
