/* C01 witness (fixed by e4df1e5): s = 0x1234; `u = ~s;` gave 0xcbcb (the low byte complemented twice) instead of 0xedcb:
   generate_bnot was not told which byte was asked for. */
short s, u;
void main()
{
    u = ~s;
}
