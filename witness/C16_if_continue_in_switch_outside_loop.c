unsigned char n;
void main() { switch (X) { case 1: if (Y) continue; n = 1; } }
