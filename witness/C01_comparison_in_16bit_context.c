short s; unsigned char a, b;
void main() { s = a < b; }
