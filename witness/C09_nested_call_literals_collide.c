unsigned char f(char *s) { return s[0]; }
void main() { X = f("a") + f("b"); }
