char y, z;
void main() { X = 3; load(y); if (X) z = 1; }
