/* C01 witness (known finding): with s = 0x1281, `s = s << 1;` leaves 0x0402 (C: 0x2502): the high-byte pass of the expression
   shifts on its own, without the bit that leaves the low byte.  `s <<= 1;` (the form the generator implements) gives 0x2502. */
short s;
void main()
{
    s = s << 1;
}
