void f(); void g(); char x;
void f(){x=1;} void h(){x=2;} void g(){x=3;}
void main(){f();g();h();}
