/* C01 / C15 witness (fixed): the result of f(), left in the accumulator, was not marked as live, so the right
   operand was computed over it:  JSR f / LDA b / CLC / ADC #1 / STA cctmp / CLC / ADC cctmp / STA x
   gives x = 2 * (b + 1) instead of f() + b + 1.  Likewise `k = 0; x = f() - f();` with f returning ++k gave 0. */
unsigned char b, x, k;
unsigned char f() { k++; return k; }
void main()
{
    k = 4;
    x = f() + (b + 1);
}
