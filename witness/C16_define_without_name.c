#define 123
void main() { }
