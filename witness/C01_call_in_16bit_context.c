/* C01 / C18 witness (fixed by 58c4ebd): JSR f / STA s / JSR f / STA s+1 -- f ran twice (n = 2) and s became 5 + 5*256. */
unsigned char n;
short s;
unsigned char f() { n++; return 5; }
void main()
{
    n = 0;
    s = f();
}
