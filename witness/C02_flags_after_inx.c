char v, z;
void main() { load(v); X++; if (v) z = 1; }
