char x, z;
void main() { z = 0; x = z + 1; do { x--; z++; } while (x > 0); }
