unsigned char a;
void f() { a = 1; }
void main() { a = f(); }
