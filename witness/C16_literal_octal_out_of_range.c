char x;
void main() { x = 040000000000; }
