unsigned char i, r, q;
unsigned char f() { return i++; }
void main() { q = 0; i = 255; r = f(); if (r) q = 1; }
