char x;
void main() { x = 1 / 0; }
