#include "acc.inc"
char a;
void main() {
  zz = 1;
}
