short *p;
void main() {}
