char a[2 ! 1];
void main() { a[0] = 1; }
