unsigned char a[4]; unsigned char r;
void main() { r = 0; X = 1; if (a[X] == 3) { a[1]++; if (a[X] == 4) r = 1; } }
