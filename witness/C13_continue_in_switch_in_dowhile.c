unsigned char n;
void main() { n = 0; X = 0; do { switch (X) { case 1: X = 5; continue; case 2: n++; } X++; } while (X < 4); }
