void f() { }
void main() { asm("LDA f", 3); }
