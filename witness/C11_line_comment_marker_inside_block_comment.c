unsigned char a;
/* see // here */
void main() { a = 1; }
