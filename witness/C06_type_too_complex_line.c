char a;

short *p;
void main() { a = 1; }
