const char arr[4] = {1,2,3,4}; char *p;
void main() { p = arr + 2000000000 + 2000000000; }
