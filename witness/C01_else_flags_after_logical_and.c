unsigned char x, y, r;
void main() { r = 0; if (x == 0 && y == 0) r = 1; else { if (y == 0) r = 2; else r = 3; } }
