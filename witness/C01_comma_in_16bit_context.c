short s, t; unsigned char a;
void main() { s = (a++, t); }
