/* C15 / C01 witness (fixed): pp[1] = 0x10ff; `pp[1] += 1;` only updated the low byte (0x1000) because the width test of the
   compound-assignment arm did not list arrays of pointers; `X = 1; pp[X] += 1;`, `pp[1]++` and `pp[1] = pp[1] + 1` give 0x1100. */
char *pp[2];
void main()
{
    pp[1] += 1;
}
