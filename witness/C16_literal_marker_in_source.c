char *p;
void main() { p = @7@; }
