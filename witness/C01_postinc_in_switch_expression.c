/* C01 witness: a post-increment inside the switch expression is emitted at the start of the first
   statement that runs, i.e. only on the path of a selected case (and never when no case is selected).
   With j = 7: no case is selected and j stays 7 (C: 8). With j = 5: r = 2 and j = 6 only because
   the increment is emitted inside `case 5`; with j = 0 likewise. */
unsigned char j, r;
void main()
{
    r = 0;
    switch (j++) { case 0: r = 1; break; case 5: r = 2; break; }
}
