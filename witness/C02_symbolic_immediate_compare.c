const char arr[] = {1,2}; unsigned char i, j;
void main() { j = 0; i = arr; if (i != 128) j = 1; }
