// header
void f() { }
void g() {
  x = 1 + f();
}
