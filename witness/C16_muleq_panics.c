unsigned char x;
void main() { x *= 2; }
