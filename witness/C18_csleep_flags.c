char y, z;
void main() { X = 3; csleep(7); if (X) z = 1; }
