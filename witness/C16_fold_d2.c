short x;
void main() { x = 2147483647 + 1; }
