unsigned char * const WSYNC = 0x02;
char z;
void main() { load(*WSYNC); strobe(WSYNC); z = 1; csleep(3); csleep(3); }
