/* C01 witness (fixed by 783d5a7): with b = 2, m[2] = 42:
       STY cctmp / LDY b / LDA cctmp / PHA / LDA #128 / STA f2_p / LDY cctmp / JSR f2 / STA cctmp / LDA m,Y / SEC / SBC cctmp / STA r
   the assignment that loads the parameter restored Y (parked for m[b]) and cleared tmp_in_use, so m[Y] was read with the program's Y,
   the saved copy pushed for the call was never pulled (stack leak), and the call was not rejected.  It is now rejected
   ("Code too complex"): the scratch byte holds the parked Y while the call needs it for its result. */
unsigned char b, r;
unsigned char m[4];
unsigned char f2(unsigned char p) { return p ^ 0x55; }
void main()
{
    r = m[b] - f2(128);
}
