short s; char z;
void main() { X = s; s <<= 1; X = s; z = X; }
