unsigned char a, c;
void main() { c = (a + 1) + (X | 256); }
