unsigned char j, n;
void main() { n = 0; do { n++; } while (j-- != 0); }
