char a[4];
void main() { X = a["abc" + 1]; }
