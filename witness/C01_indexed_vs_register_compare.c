char arr[4]; char z;
void main() { if (arr[Y] < X) z = 1; }
