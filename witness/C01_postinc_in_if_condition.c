unsigned char j, k, n;
void main() { n = 0; if (j++ == 5) n = 1; k = j; }
