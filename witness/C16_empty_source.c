// only a comment
