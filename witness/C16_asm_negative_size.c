unsigned char i;
void main() { asm("nop", -1); if (i) i = 1; }
