char hdr;
char = ;
