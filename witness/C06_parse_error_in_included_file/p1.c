char a;
#include "bad.h"
void main() { a = 1; }
