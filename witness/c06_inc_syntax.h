// header
void h() { x = y * z; }
