unsigned char a, b, c;
void main() { c = (b + 1) + (a << 9); }
