/* C01 / C15 witness (fixed): t[2] = 0x10ff; `Y = 2; t[Y]++;` emitted LDA t,Y / CLC / ADC #1 / STA t,Y only:
   the element became 0x1000 instead of 0x1100 (t[X]++, t[2]++ and t[Y] += 1 carry into the high byte). */
short t[4];
unsigned char b;
void main()
{
    Y = b;
    t[Y]++;
}
