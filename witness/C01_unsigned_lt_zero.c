char x, z;
void main() { z = 0; x = x + 1; if (x < 0) z = 1; }
