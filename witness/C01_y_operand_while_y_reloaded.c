/* C01 witness (known finding): LDY #2 / STY cctmp / LDY #0 / LDA a,Y / CLC / ADC (p),Y / STA r / LDY cctmp
   a[Y] is read after Y has been loaded with 0 for *p: r = a[0] + c instead of a[2] + c. */
unsigned char a[4];
unsigned char c, r;
char *p;
void main()
{
    p = &c;
    Y = 2;
    r = a[Y] + *p;
}
