unsigned char a, r;
void main() { r = 0; a = 5; a = X; if (a) r = 1; }
