char x;
void pr(char *a, char *b) { x = a[0]; }
void main(){ pr("abc","def"); }
