unsigned char i, r, q;
unsigned char f() { return i++; }
void main() { i = 5; r = f(); q = i; }
