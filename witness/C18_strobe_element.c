unsigned char regs[4]; unsigned char v;
void main() { load(v); strobe(regs[2]); }
