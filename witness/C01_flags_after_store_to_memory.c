unsigned char x, y, r;
void main() { r = 0; y = 7; x++; store(x); if (x) r = 1; }
