unsigned char r;
void main() { X = 0; asm("LDX #5", 2); X = 0; r = X; }
