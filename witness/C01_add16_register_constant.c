/* `s = X + 1000;` emits TXA / CLC / ADC #232 / STA s / LDA #3 / STA s+1: the carry of the low byte never reaches the high byte
   (X = 100 gives 844 instead of 1100).  generate_expr hands Immediate(0) to generate_arithm as "the high byte of X", and generate_arithm folds
   Immediate(0) + Immediate(1000) into a constant. */
short s;
void main() { s = X + 1000; }
