/* C01 witness (fixed by 9816290): the result of a function declared `signed char` was compared as unsigned:
   CMP #1 / BCS instead of CMP #1 / BPL, so r stayed 0 although -1 < 1. */
unsigned char r;
signed char f() { return -1; }
void main()
{
    r = 0;
    if (f() < 1) r = 1;
}
