unsigned char x, y, r;
void main() { r = 0; x = y; asm("LDX #0", 2); if (x) r = 1; }
