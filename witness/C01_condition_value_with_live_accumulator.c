unsigned char a, b, c, e;
void main() { c = (b + 1) + (a && e); }
