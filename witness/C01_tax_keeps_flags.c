unsigned char j, k, r;
void main() { r = 0; load(j); X = k; store(Y); if (X) r = 1; }
