char x[99999999999];
void main() { x[0] = 1; }
