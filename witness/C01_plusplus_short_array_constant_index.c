short sa[4], r;
void main() { sa[2] = 0x12ff; sa[2]++; r = sa[2]; }
