/* C01 witness (known finding): the place reserved for `STY cctmp` precedes the subscript's code, but the
   generator does not mark the scratch byte as taken while it emits that code.  The subscript below spills
   (c + 1) to cctmp, so the `LDY cctmp` that restores Y after the access loads c + 1 instead:
       STY cctmp / LDA b / CLC / ADC #1 / PHA / LDA c / CLC / ADC #1 / STA cctmp / PLA / CLC / ADC cctmp / TAY / ... / LDY cctmp
   With b = 1, c = 2: ry == 3 (C: 7).  The same happens when the subscript calls a function that uses cctmp. */
unsigned char a[8];
unsigned char b, c, x, ry;
void main()
{
    Y = 7;
    x = a[(b + 1) + (c + 1)];
    ry = Y;
}
