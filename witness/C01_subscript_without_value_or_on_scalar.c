/* C01 / C15 / C16 witnesses (fixed by 06dc1fc and d6af377): both statements were accepted.
   `c[g()]` with a void g() compiled to JSR g / LDA c / STA x (the subscript was dropped);
   `c[b]` on a char compiled to STY cctmp / LDY b / LDA c,Y although `c[X]` and `c[2]` are rejected
   with "Subscript not allowed on variables". */
unsigned char c, b, x, n;
void g() { n++; }
void main()
{
    x = c[g()];
    x = c[b];
}
