#!/usr/bin/env python3
"""Regenerates MANIFEST.json from vf/manifest_data.py (kept valid at all times)."""
import json, sys, os
sys.path.insert(0, os.path.dirname(os.path.abspath(__file__)))
from vf import manifest_data as md
json.dump(md.manifest(), open(os.path.join(os.path.dirname(os.path.abspath(__file__)), "MANIFEST.json"), "w"), indent=1)
